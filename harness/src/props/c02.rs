//! C02 — a rule run fires for exactly the matches of its body, whatever the join plan.
//! Conjunctive bodies of every hypergraph shape (chains, stars, cycles, cliques, repeated
//! variables, constants, guards, functional-dependency duplicates) over random relations with
//! skewed cardinalities; `(rule body ((Out vars)))`, `(run 1)`, `Out` read back and compared with
//!  (i) a reference nested-loop evaluator (the property, evaluated directly),
//!  (ii) the Lean matcher `matchAll` (theorems C02_matches / C02_perm),
//!  (iii) the same rule with `:no-decomp`, with the atoms permuted, and with 4 threads.
//! The cfg hook in `tree_decompose_and_plan` reports how many plans were single-bag / decomposed.
use crate::{engine, lean::run_driver, report::Report, rng::Rng, Ctx};
use egglog::EGraph;
use serde_json::json;
use std::collections::BTreeSet;

#[derive(Clone, Debug, Hash, PartialEq)]
enum T { V(usize), C(i64) }

#[derive(Clone, Debug, Hash)]
enum Atom { Rel(usize, Vec<T>), Fn(T, T), Guard(&'static str, T, T) }

#[derive(Clone, Debug, Hash)]
struct Case { arities: Vec<usize>, rows: Vec<Vec<Vec<i64>>>, fnrows: Vec<(i64, i64)>, body: Vec<Atom>, nvars: usize }

fn tt(t: &T) -> String { match t { T::V(i) => format!("x{i}"), T::C(c) => c.to_string() } }
fn tm(t: &T) -> String { match t { T::V(i) => format!("v{i}"), T::C(c) => c.to_string() } }

fn gen_case(rng: &mut Rng) -> Case {
    let nrel = 1 + rng.below(3);
    let arities: Vec<usize> = (0..nrel).map(|_| 1 + rng.below(3)).collect();
    let dom = [2i64, 3, 5, 9][rng.below(4)];
    let rows: Vec<Vec<Vec<i64>>> = arities.iter().map(|a| { let n = [0usize, 1, 3, 8, 20, 45][rng.below(6)]; (0..n).map(|_| (0..*a).map(|_| rng.range(0, dom - 1)).collect()).collect() }).collect();
    let fnrows: Vec<(i64, i64)> = (0..rng.below(8)).map(|_| (rng.range(0, dom - 1), rng.range(0, dom - 1))).collect();
    let natoms = 1 + rng.below(6);
    let nvars = 1 + rng.below(5);
    let shape = rng.below(5);
    let mut body = vec![];
    for k in 0..natoms {
        let r = rng.below(nrel);
        let args: Vec<T> = (0..arities[r]).map(|j| {
            if rng.chance(1, 9) { return T::C(rng.range(0, dom - 1)); }
            match shape {
                0 => T::V((k + j) % nvars),                       // chain / cycle
                1 => if j == 0 { T::V(0) } else { T::V((1 + k + j) % nvars) }, // star
                2 => T::V(rng.below(nvars)),                       // random (cliques, repeated variables)
                3 => T::V((k * 2 + j) % nvars),
                _ => T::V(if rng.chance(1, 3) { 0 } else { rng.below(nvars) }),
            }
        }).collect();
        body.push(Atom::Rel(r, args));
    }
    // functional-dependency duplicates and guards over bound variables
    let bound: Vec<usize> = { let mut b = BTreeSet::new(); for a in &body { if let Atom::Rel(_, ts) = a { for t in ts { if let T::V(i) = t { b.insert(*i); } } } } b.into_iter().collect() };
    let mut next = nvars;
    if !bound.is_empty() && rng.chance(1, 3) {
        let v = bound[rng.below(bound.len())];
        body.push(Atom::Fn(T::V(v), T::V(next))); next += 1;
        if rng.chance(1, 2) { body.push(Atom::Fn(T::V(v), T::V(next))); next += 1; }
    }
    if bound.len() >= 2 && rng.chance(1, 2) { let (a, b) = (bound[rng.below(bound.len())], bound[rng.below(bound.len())]); body.push(Atom::Guard(["<", "!=", "<="][rng.below(3)], T::V(a), if rng.chance(1, 3) { T::C(rng.range(0, dom - 1)) } else { T::V(b) })); }
    Case { arities, rows, fnrows, body, nvars: next }
}

fn out_vars(c: &Case) -> Vec<usize> {
    let mut b = BTreeSet::new();
    for a in &c.body { match a { Atom::Rel(_, ts) => for t in ts { if let T::V(i) = t { b.insert(*i); } }, Atom::Fn(x, y) => { for t in [x, y] { if let T::V(i) = t { b.insert(*i); } } }, _ => {} } }
    b.into_iter().take(4).collect()
}

fn header(c: &Case) -> String {
    let mut s = String::new();
    for (i, a) in c.arities.iter().enumerate() { s.push_str(&format!("(relation R{i} ({}))\n", vec!["i64"; *a].join(" "))); }
    s.push_str("(function fn (i64) i64 :merge (min old new))\n");
    let ov = out_vars(c);
    s.push_str(&format!("(relation Out ({}))\n(relation Hit ())\n", vec!["i64"; ov.len()].join(" ")));
    for (i, rs) in c.rows.iter().enumerate() { for r in rs { s.push_str(&format!("(R{i} {})\n", r.iter().map(|x| x.to_string()).collect::<Vec<_>>().join(" "))); } }
    for (k, v) in &c.fnrows { s.push_str(&format!("(set (fn {k}) {v})\n")); }
    s
}

fn body_text(body: &[Atom]) -> String {
    body.iter().map(|a| match a { Atom::Rel(r, ts) => format!("(R{r} {})", ts.iter().map(tt).collect::<Vec<_>>().join(" ")), Atom::Fn(x, y) => format!("(= {} (fn {}))", tt(y), tt(x)), Atom::Guard(op, a, b) => format!("({op} {} {})", tt(a), tt(b)) }).collect::<Vec<_>>().join(" ")
}

fn rule_text(c: &Case, body: &[Atom], opts: &str) -> String {
    let ov = out_vars(c);
    let head = if ov.is_empty() { "(Hit)".to_string() } else { format!("(Out {})", ov.iter().map(|v| format!("x{v}")).collect::<Vec<_>>().join(" ")) };
    format!("(rule ({}) ({head}){opts})", body_text(body))
}

/// the specification: nested loops over the rows, in the order of the atoms as given
fn reference(c: &Case) -> BTreeSet<Vec<i64>> {
    // effective fn table: min-merge per key
    let mut fnmap: std::collections::BTreeMap<i64, i64> = Default::default();
    for (k, v) in &c.fnrows { let e = fnmap.entry(*k).or_insert(*v); if *v < *e { *e = *v; } }
    let mut rows: Vec<BTreeSet<Vec<i64>>> = c.rows.iter().map(|r| r.iter().cloned().collect()).collect();
    let _ = &mut rows;
    let mut envs: Vec<Vec<Option<i64>>> = vec![vec![None; c.nvars]];
    let unify = |env: &mut Vec<Option<i64>>, t: &T, v: i64| -> bool { match t { T::C(c) => *c == v, T::V(i) => match env[*i] { Some(w) => w == v, None => { env[*i] = Some(v); true } } } };
    for a in &c.body {
        let mut next = vec![];
        for env in &envs {
            match a {
                Atom::Rel(r, ts) => for row in &rows[*r] { let mut e = env.clone(); if ts.iter().zip(row).all(|(t, v)| unify(&mut e, t, *v)) { next.push(e); } },
                Atom::Fn(x, y) => for (k, v) in &fnmap { let mut e = env.clone(); if unify(&mut e, x, *k) && unify(&mut e, y, *v) { next.push(e); } },
                Atom::Guard(op, x, y) => { let val = |t: &T| match t { T::C(c) => Some(*c), T::V(i) => env[*i] }; if let (Some(p), Some(q)) = (val(x), val(y)) { if match *op { "<" => p < q, "<=" => p <= q, _ => p != q } { next.push(env.clone()); } } }
            }
        }
        envs = next;
    }
    let ov = out_vars(c);
    envs.iter().map(|e| ov.iter().map(|v| e[*v].unwrap_or(-999)).collect()).collect()
}

fn read_out(eg: &EGraph, nonempty_marker: bool) -> BTreeSet<Vec<i64>> {
    let d = engine::raw_dump(eg);
    let name = if nonempty_marker { "Hit" } else { "Out" };
    d.tables.iter().filter(|t| t.name == name).flat_map(|t| t.rows.iter().map(|r| r.args.iter().map(|a| if let engine::V::Int(i) = a { *i } else { -1 }).collect::<Vec<i64>>())).collect()
}

fn run_variant(c: &Case, body: &[Atom], opts: &str, threads: usize) -> Result<BTreeSet<Vec<i64>>, String> {
    let mut eg = EGraph::default().with_num_threads(threads);
    let o = engine::run(&mut eg, &header(c));
    if !o.is_ok() { return Err(format!("setup: {o:?}")); }
    let o = engine::run(&mut eg, &(rule_text(c, body, opts) + "\n(run 1)"));
    if !o.is_ok() { return Err(format!("{o:?}")); }
    Ok(read_out(&eg, out_vars(c).is_empty()))
}

fn model_lines(c: &Case) -> Vec<String> {
    // tables: R0.. , fn , Out/Hit
    let mut l = vec!["eg new".to_string()];
    for a in &c.arities { l.push(format!("eg decl {} b unit", "b".repeat(*a))); }
    l.push("eg decl b b min".into());
    let ov = out_vars(c);
    l.push(format!("eg decl {} b unit", if ov.is_empty() { "-".to_string() } else { "b".repeat(ov.len()) }));
    let fnid = c.arities.len(); let outid = fnid + 1;
    for (i, rs) in c.rows.iter().enumerate() { for r in rs { l.push(format!("eg act set {i} {} = 0", r.iter().map(|x| x.to_string()).collect::<Vec<_>>().join(" "))); } }
    for (k, v) in &c.fnrows { l.push(format!("eg act set {fnid} {k} = {v}")); }
    let mut fresh = c.nvars + 10;
    let atoms: Vec<String> = c.body.iter().map(|a| match a {
        Atom::Rel(r, ts) => { fresh += 1; format!("tbl {r} {} -> v{fresh}", ts.iter().map(tm).collect::<Vec<_>>().join(" ")) }
        Atom::Fn(x, y) => format!("tbl {fnid} {} -> {}", tm(x), tm(y)),
        Atom::Guard(op, a, b) => format!("prim {} {} {}", match *op { "<" => "lt", "<=" => "le", _ => "ne" }, tm(a), tm(b)),
    }).collect();
    l.push(format!("eg rule 0 {} => set {outid} {} = 0", atoms.join(" ; "), ov.iter().map(|v| format!("v{v}")).collect::<Vec<_>>().join(" ")));
    l.push("eg run 0 1".into());
    l.push("eg dump".into());
    l
}

/// Larger, GROUPED data: chains of 3-5 atoms whose middle relation has many rows per join key (1..40 rows sharing the
/// key columns, stored contiguously or shuffled, distinguished by a unique tag column), so that per-key refinements
/// of an atom are dense row ranges and per-value child nodes get cached (> 16 rows) — the regime of the executor's
/// trie-node recycling and caches.  Compared with a direct evaluation, with :no-decomp, permuted atoms and 4 threads.
fn grouped(rep: &mut Report, rng: &mut Rng, n: usize) {
    for ci in 0..n {
        let n_m = 1 + rng.below(5) as i64; let n_w = 1 + rng.below(3) as i64;
        let group = [1i64, 5, 17, 20, 33, 40][rng.below(6)];
        let mut a: Vec<(i64, i64, i64)> = vec![]; let mut tag = 1000;
        for m in 0..n_m { for w in 0..n_w { let g = if rng.chance(1, 4) { 1 + rng.below(group as usize) as i64 } else { group }; for _ in 0..g { a.push((m, w, tag)); tag += 1; } } }
        if rng.chance(1, 3) { rng.shuffle(&mut a); }
        let p: Vec<(i64, i64)> = (0..n_m).filter(|_| rng.chance(4, 5)).map(|m| (m, m + 10)).collect();
        let q: Vec<(i64, i64)> = (0..n_m).filter(|_| rng.chance(4, 5)).map(|m| (m + 10, 7)).collect();
        let b: Vec<(i64, i64)> = (0..n_w).filter(|_| rng.chance(4, 5)).map(|w| (w, 5)).collect();
        let extra_c = rng.chance(1, 2); // a fifth atom C(v) restricting the tags
        let cset: Vec<i64> = a.iter().filter(|_| rng.chance(2, 3)).map(|r| r.2).collect();
        let mut hdr = String::from("(relation P (i64 i64))\n(relation Q (i64 i64))\n(relation A (i64 i64 i64))\n(relation B (i64 i64))\n(relation C (i64))\n(relation Out (i64 i64 i64))\n");
        for (x, y) in &p { hdr.push_str(&format!("(P {x} {y})\n")); } for (x, y) in &q { hdr.push_str(&format!("(Q {x} {y})\n")); }
        for (x, y, z) in &a { hdr.push_str(&format!("(A {x} {y} {z})\n")); } for (x, y) in &b { hdr.push_str(&format!("(B {x} {y})\n")); }
        for v in &cset { hdr.push_str(&format!("(C {v})\n")); }
        let mut atoms = vec!["(P m p)", "(Q p q)", "(A m w v)", "(B w u)"]; if extra_c { atoms.push("(C v)"); }
        let want: BTreeSet<Vec<i64>> = a.iter().filter(|(m, w, v)| p.iter().any(|(pm, pp)| pm == m && q.iter().any(|(qp, _)| qp == pp)) && b.iter().any(|(bw, _)| bw == w) && (!extra_c || cset.contains(v))).map(|(m, w, v)| vec![*m, *w, *v]).collect();
        rep.evaluations += 1; rep.note_nontrivial(&("grouped", ci, n_m, n_w, group, extra_c));
        let mut perm = atoms.clone(); rng.shuffle(&mut perm);
        for (name, body, opts, threads) in [("default plan", atoms.clone(), "", 1usize), (":no-decomp", atoms.clone(), " :no-decomp", 1), ("atoms permuted", perm, "", 1), ("4 threads", atoms.clone(), "", 4)] {
            if threads == 4 && ci % 4 != 0 { continue; }
            let rule = format!("(rule ({}) ((Out m w v)){opts})\n(run 1)", body.join(" "));
            let mut eg = EGraph::default().with_num_threads(threads);
            if !engine::run(&mut eg, &hdr).is_ok() { rep.violate("correspondence", "c02-setup", "grouped setup rejected".into(), json!({})); break; }
            let o = engine::run(&mut eg, &rule);
            if !o.is_ok() { rep.violate("property", "c02-variant-rejected", format!("[grouped data] variant `{name}` failed: {o:?}"), json!({"program": hdr.clone() + &rule})); break; }
            let got = read_out(&eg, false);
            if got != want {
                let missing: Vec<&Vec<i64>> = want.difference(&got).take(4).collect(); let extra: Vec<&Vec<i64>> = got.difference(&want).take(4).collect();
                rep.violate("property", if name == "default plan" { "c02-wrong-matches" } else { "c02-plan-dependent" }, format!("[grouped data, {} rows of A, groups of {group}] variant `{name}`: the rule fired for the wrong set of substitutions: {} missing e.g. {missing:?}, {} extra e.g. {extra:?} (of {} expected)", a.len(), want.difference(&got).count(), got.difference(&want).count(), want.len()), json!({"program": hdr.clone() + &rule, "threads": threads}));
                break;
            }
        }
    }
}

pub fn run(ctx: &Ctx) -> Report {
    let mut rep = Report::new("C02", "random conjunctive bodies (1-6 relational atoms over 1-3 relations of arity 1-3, chain/star/cycle/random variable patterns, repeated variables, constants, a function atom possibly duplicated (functional dependency), a guard) over random databases with skewed cardinalities (0..45 rows, domains 2..9); fired once into an Out relation. non-trivial = >= 3 atoms, or a repeated variable / constant / guard / FD duplicate (distinct by case); decomposed plans counted through the cfg hook");
    let mut rng = Rng::new(ctx.seed ^ 0xC02);
    let n = ctx.n(300, 6000);
    let cases: Vec<Case> = (0..n).map(|_| gen_case(&mut rng)).collect();
    let mut lines = vec![]; let mut ends = vec![];
    for c in &cases { lines.extend(model_lines(c)); ends.push(lines.len() - 1); }
    let model = run_driver(&lines);
    if let Err(e) = &model { rep.violate("correspondence", "driver-failure", e.clone(), json!({})); }
    let _ = egglog_core_relations::verif_hooks::take_plan_log();
    for (ci, c) in cases.iter().enumerate() {
        rep.evaluations += 1;
        let want = reference(c);
        let prog = || json!({"program": header(c) + &rule_text(c, &c.body, "") + "\n(run 1)"});
        if c.body.len() >= 3 || c.body.iter().any(|a| !matches!(a, Atom::Rel(..))) { rep.note_nontrivial(c); }
        if ci < 2 { rep.sample(json!(rule_text(c, &c.body, ""))); }
        let mut perm = c.body.clone();
        // permute the relational atoms only (guards and function atoms need their inputs bound textually? no: egglog is order-free) — permute everything
        rng.shuffle(&mut perm);
        let variants: Vec<(&str, Vec<Atom>, &str, usize)> = vec![("default plan", c.body.clone(), "", 1), (":no-decomp", c.body.clone(), " :no-decomp", 1), ("atoms permuted", perm, "", 1), ("4 threads", c.body.clone(), "", 4)];
        for (vi, (name, body, opts, threads)) in variants.iter().enumerate() {
            if vi == 3 && ci % 6 != 0 { continue; }
            match run_variant(c, body, opts, *threads) {
                Err(e) => { if vi == 0 { rep.count("rules_rejected", 1); } else { rep.violate("property", "c02-variant-rejected", format!("variant `{name}` of an accepted rule failed: {e}"), prog()); } break; }
                Ok(got) => {
                    let got_cmp: BTreeSet<Vec<i64>> = if out_vars(c).is_empty() { if got.is_empty() { BTreeSet::new() } else { [vec![]].into_iter().collect() } } else { got };
                    let want_cmp: BTreeSet<Vec<i64>> = if out_vars(c).is_empty() { if want.is_empty() { BTreeSet::new() } else { [vec![]].into_iter().collect() } } else { want.clone() };
                    if got_cmp != want_cmp {
                        let missing: Vec<&Vec<i64>> = want_cmp.difference(&got_cmp).take(4).collect(); let extra: Vec<&Vec<i64>> = got_cmp.difference(&want_cmp).take(4).collect();
                        rep.violate("property", if vi == 0 { "c02-wrong-matches" } else { "c02-plan-dependent" }, format!("variant `{name}`: the rule fired for the wrong set of substitutions: missing {missing:?}, extra {extra:?} (of {} expected)", want_cmp.len()), json!({"program": header(c) + &rule_text(c, body, opts) + "\n(run 1)", "threads": threads}));
                        break;
                    }
                }
            }
        }
        if let Ok(m) = &model {
            rep.traces_vs_model += 1;
            let outid = c.arities.len() + 1;
            let got: BTreeSet<Vec<i64>> = m[ends[ci]].split_whitespace().filter_map(|t| { let (f, rest) = t.split_once(':')?; if f.parse::<usize>().ok()? != outid { return None; } let (args, _) = rest.split_once('>')?; Some(if args.is_empty() { vec![] } else { args.split(',').map(|x| x.parse().unwrap_or(-1)).collect() }) }).collect();
            let want_cmp: BTreeSet<Vec<i64>> = if out_vars(c).is_empty() { if want.is_empty() { BTreeSet::new() } else { [vec![]].into_iter().collect() } } else { want.clone() };
            if got != want_cmp && m[ends[ci] - 1] != "error" {
                rep.violate("correspondence", "c02-model-mismatch", format!("Lean matcher (theorem C02_matches) disagrees with the reference evaluator: model {:?} vs {:?}", got.iter().take(4).collect::<Vec<_>>(), want_cmp.iter().take(4).collect::<Vec<_>>()), prog());
            }
        }
    }
    grouped(&mut rep, &mut rng, ctx.n(60, 1200));
    let log = egglog_core_relations::verif_hooks::take_plan_log();
    rep.count("plans_single_bag", log.iter().filter(|(_, b)| *b <= 1).count() as u64);
    rep.count("plans_decomposed", log.iter().filter(|(_, b)| *b > 1).count() as u64);
    rep.count("plans_decomposed_3plus_bags", log.iter().filter(|(_, b)| *b > 2).count() as u64);
    rep
}
