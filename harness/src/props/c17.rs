//! C17 — union-find.  Sequential: implementation vs Lean model (per-op results and final
//! representatives) plus the property oracle evaluated directly on the implementation
//! (same class iff connected, representative = minimum).  Concurrent: stress histories
//! checked against the closure of the unions and against timing-aware same_set/find bounds.
use crate::{lean::run_driver, report::Report, rng::Rng, Ctx};
use egglog_numeric_id::{define_id, NumericId};
use egglog_union_find::{concurrent, UnionFind};
use serde_json::json;

define_id!(pub Id, u32, "test id");

#[derive(Clone, Debug, PartialEq, Eq, Hash)]
pub enum Op { Union(u32, u32), Find(u32), Reserve(u32), Reset }

impl Op {
    fn line(&self) -> String {
        match self {
            Op::Union(a, b) => format!("uf union {a} {b}"),
            Op::Find(a) => format!("uf find {a}"),
            Op::Reserve(a) => format!("uf reserve {a}"),
            Op::Reset => "uf reset".to_string(),
        }
    }
}

/// reference partition: labels by naive relabelling (the specification, O(n) per union)
struct Spec { label: Vec<u32> }
impl Spec {
    fn ensure(&mut self, x: u32) { while self.label.len() <= x as usize { let n = self.label.len() as u32; self.label.push(n); } }
    fn union(&mut self, a: u32, b: u32) {
        self.ensure(a); self.ensure(b);
        let (la, lb) = (self.label[a as usize], self.label[b as usize]);
        if la != lb { let (mn, mx) = (la.min(lb), la.max(lb)); for l in self.label.iter_mut() { if *l == mx { *l = mn; } } }
    }
    fn reset(&mut self) { for (i, l) in self.label.iter_mut().enumerate() { *l = i as u32; } }
    fn rep(&self, x: u32) -> u32 { self.label.get(x as usize).copied().unwrap_or(x) }
}

/// run one sequence on the implementation; returns per-op outputs and the final dump
fn run_impl(ops: &[Op], n: u32) -> (Vec<String>, String, Vec<String>) {
    let mut uf = UnionFind::<Id>::default();
    let mut spec = Spec { label: vec![] };
    let mut outs = vec![];
    let mut prop_fail = vec![];
    for (i, op) in ops.iter().enumerate() {
        match op {
            Op::Union(a, b) => {
                let (p, c) = uf.union(Id::new(*a), Id::new(*b));
                spec.union(*a, *b);
                outs.push(format!("{} {}", p.rep(), c.rep()));
            }
            Op::Find(a) => {
                let r = uf.find(Id::new(*a));
                outs.push(format!("{}", r.rep()));
                if r.rep() != spec.rep(*a) { prop_fail.push(format!("op {i}: find({a}) = {} but the minimum of its class is {}", r.rep(), spec.rep(*a))); }
            }
            Op::Reserve(a) => { uf.reserve(Id::new(*a)); outs.push("ok".into()); }
            Op::Reset => { uf.reset(); spec.reset(); outs.push("ok".into()); }
        }
        // the property, evaluated on the implementation after every op
        for x in 0..n {
            let r = uf.find_naive(Id::new(x)).rep();
            if r != spec.rep(x) {
                prop_fail.push(format!("after op {i} ({op:?}): representative of {x} is {r}, specification (min of the connected class) says {}", spec.rep(x)));
                break;
            }
        }
    }
    let dump = (0..n).map(|x| uf.find_naive(Id::new(x)).rep().to_string()).collect::<Vec<_>>().join(" ");
    (outs, dump, prop_fail)
}

fn check_batch(rep: &mut Report, cases: &[(Vec<Op>, u32)], label: &str) {
    let mut lines = vec![];
    for (ops, n) in cases {
        lines.push("uf new".to_string());
        for op in ops { lines.push(op.line()); }
        lines.push(format!("uf dump {n}"));
    }
    let model = match run_driver(&lines) {
        Ok(m) => m,
        Err(e) => { rep.violate("correspondence", "driver-failure", e, json!({"stage": label})); return; }
    };
    let mut k = 0;
    for (ops, n) in cases {
        k += 1; // "uf new"
        let (outs, dump, prop_fail) = run_impl(ops, *n);
        rep.evaluations += 1;
        rep.traces_vs_model += 1;
        let multi = ops.iter().filter(|o| matches!(o, Op::Union(a, b) if a != b)).count() >= 2;
        if multi { rep.note_nontrivial(ops); }
        let replay = json!({"ops": ops.iter().map(|o| o.line()).collect::<Vec<_>>(), "n": n});
        if !prop_fail.is_empty() {
            rep.violate("property", "uf-seq-partition", prop_fail[0].clone(), replay.clone());
        }
        let mut disagree = None;
        for (i, o) in outs.iter().enumerate() {
            if &model[k + i] != o { disagree = Some(format!("op {i} {:?}: implementation returned `{o}`, model `{}`", ops[i], model[k + i])); break; }
        }
        k += ops.len();
        if disagree.is_none() && model[k] != dump { disagree = Some(format!("final representatives: implementation `{dump}`, model `{}`", model[k])); }
        k += 1;
        if let Some(d) = disagree {
            if prop_fail.is_empty() {
                rep.violate("correspondence", "uf-seq-model-mismatch", format!("model UF.step (theorems C17_partition/C17_min/C17_union) no longer corresponds: {d}"), replay);
            }
        }
    }
}

fn exhaustive(rep: &mut Report, ids: u32, len: usize) {
    let mut alphabet = vec![];
    for a in 0..ids { for b in 0..ids { alphabet.push(Op::Union(a, b)); } }
    for a in 0..ids { alphabet.push(Op::Find(a)); }
    alphabet.push(Op::Reset);
    let mut cases = vec![];
    let mut idx = vec![0usize; len];
    loop {
        cases.push((idx.iter().map(|&i| alphabet[i].clone()).collect::<Vec<_>>(), ids + 1));
        let mut p = 0;
        loop {
            if p == len { break; }
            idx[p] += 1;
            if idx[p] < alphabet.len() { break; }
            idx[p] = 0; p += 1;
        }
        if p == len { break; }
    }
    rep.count("exhaustive_sequences", cases.len() as u64);
    rep.extra.insert("exhaustive_bound".into(), json!({"ids": ids, "length": len}));
    for chunk in cases.chunks(20000) { check_batch(rep, chunk, "exhaustive"); }
}

fn random_seqs(rep: &mut Report, rng: &mut Rng, count: usize) {
    let mut cases = vec![];
    for _ in 0..count {
        let ids = [4u32, 8, 16, 64, 200][rng.below(5)];
        let len = 1 + rng.below(if ids > 16 { 300 } else { 40 });
        let mut ops = vec![];
        for _ in 0..len {
            let r = rng.below(100);
            ops.push(if r < 55 { Op::Union(rng.below(ids as usize) as u32, rng.below(ids as usize) as u32) }
                     else if r < 90 { Op::Find(rng.below(ids as usize) as u32) }
                     else if r < 97 { Op::Reserve(rng.below(ids as usize + 8) as u32) }
                     else { Op::Reset });
        }
        if cases.len() < 2 { rep.sample(json!(ops.iter().take(12).map(|o| o.line()).collect::<Vec<_>>())); }
        cases.push((ops, ids + 8));
    }
    check_batch(rep, &cases, "random");
}

/// Concurrent structure: T threads, random merges / finds / same_set with growth beyond the
/// initial capacity; every call stamped with a global counter before and after.
fn concurrent_stress(rep: &mut Report, rng: &mut Rng, rounds: usize) {
    use std::sync::atomic::{AtomicU64, Ordering::SeqCst};
    use std::sync::Arc;
    #[derive(Clone, Debug)]
    enum Ev { Union(u32, u32, u32, u32), Find(u32, u32), Same(u32, u32, bool) }
    for round in 0..rounds {
        let threads = 2 + rng.below(7);
        let ids = [8usize, 40, 100, 600][rng.below(4)];
        let per = 50 + rng.below(400);
        let cap = [1usize, 4, 32][rng.below(3)];
        let uf = Arc::new(concurrent::UnionFind::<Id>::with_capacity(cap));
        let clock = Arc::new(AtomicU64::new(0));
        let mut hs = vec![];
        for _t in 0..threads {
            let uf = uf.clone(); let clock = clock.clone(); let mut r = rng.fork();
            hs.push(std::thread::spawn(move || {
                let mut log: Vec<(u64, u64, Ev)> = vec![];
                for _ in 0..per {
                    let a = r.below(ids) as u32; let b = r.below(ids) as u32;
                    let t0 = clock.fetch_add(1, SeqCst);
                    let ev = match r.below(10) {
                        0..=4 => { let (p, c) = uf.union(Id::new(a), Id::new(b)); Ev::Union(a, b, p.rep(), c.rep()) }
                        5..=7 => Ev::Find(a, uf.find(Id::new(a)).rep()),
                        _ => Ev::Same(a, b, uf.same_set(Id::new(a), Id::new(b))),
                    };
                    let t1 = clock.fetch_add(1, SeqCst);
                    log.push((t0, t1, ev));
                }
                log
            }));
        }
        let mut all: Vec<(u64, u64, Ev)> = vec![];
        for h in hs { match h.join() { Ok(l) => all.extend(l), Err(_) => {
            rep.violate("property", "uf-conc-panic", "a thread panicked in the concurrent union-find".into(), json!({"round": round, "seed_state": rng.0})); } } }
        rep.evaluations += 1;
        let overlapping = all.iter().any(|(s, e, _)| all.iter().any(|(s2, e2, _)| s2 > s && s2 < e && e2 > e));
        if overlapping { rep.note_nontrivial(&(round, threads, ids, per)); }
        // final closure of all unions
        let mut fin = Spec { label: vec![] };
        fin.ensure(ids as u32);
        for (_, _, ev) in &all { if let Ev::Union(a, b, _, _) = ev { fin.union(*a, *b); } }
        let mut bad = None;
        for x in 0..ids as u32 {
            let r = uf.find(Id::new(x)).rep();
            if r != fin.rep(x) { bad = Some(format!("final representative of {x} is {r}; the unions performed give minimum {}", fin.rep(x))); break; }
        }
        for (t0, t1, ev) in &all {
            if bad.is_some() { break; }
            // unions certainly complete before this call started / possibly complete before it ended
            let mut before = Spec { label: vec![] }; before.ensure(ids as u32);
            let mut maybe = Spec { label: vec![] }; maybe.ensure(ids as u32);
            for (s, e, ev2) in &all { if let Ev::Union(a, b, _, _) = ev2 { if e < t0 { before.union(*a, *b); } if s < t1 { maybe.union(*a, *b); } } }
            match ev {
                Ev::Find(x, r) => {
                    if maybe.rep(*r) != maybe.rep(*x) || *r > before.rep(*x) || *r < fin.rep(*x) {
                        bad = Some(format!("find({x}) returned {r}: not explainable by any linearisation point in its call interval")); }
                }
                Ev::Same(a, b, v) => {
                    if *v && maybe.rep(*a) != maybe.rep(*b) { bad = Some(format!("same_set({a},{b}) = true but no union that began before it returned connects them")); }
                    if !*v && before.rep(*a) == before.rep(*b) { bad = Some(format!("same_set({a},{b}) = false although unions completed before the call connect them")); }
                }
                Ev::Union(a, b, p, c) => {
                    if maybe.rep(*p) != maybe.rep(*a) || maybe.rep(*c) != maybe.rep(*a) || maybe.rep(*a) != maybe.rep(*b) || p > c {
                        bad = Some(format!("union({a},{b}) returned ({p},{c}), not members of the merged class or parent > child")); }
                }
            }
        }
        if let Some(b) = bad {
            all.sort_by_key(|x| x.0);
            rep.violate("property", "uf-conc-linearizability", b,
                json!({"threads": threads, "ids": ids, "capacity": cap, "history": all.iter().take(400).map(|(s, e, ev)| format!("{s}..{e} {ev:?}")).collect::<Vec<_>>()}));
        }
    }
    rep.count("concurrent_histories", rounds as u64);
}

/// Targeted interleaving: the representative of a class keeps MOVING (a linker merges the class into
/// ever smaller ids, growing the buffer on the way) while checker threads query pairs whose
/// connectivity was settled before they started.  Any `false` for a settled pair, `true` for a
/// stranger, or a non-monotone `find` has no linearisation point.
fn moving_root(rep: &mut Report, rng: &mut Rng, rounds: usize) {
    use std::sync::atomic::{AtomicBool, Ordering::SeqCst};
    use std::sync::Arc;
    for round in 0..rounds {
        let n: u32 = [1 << 10, 1 << 12, 1 << 14][rng.below(3)];
        let cap = [1usize, 64, 4096][rng.below(3)];
        let uf = Arc::new(concurrent::UnionFind::<Id>::with_capacity(cap));
        let (x, y) = (n + 10 + rng.below(50) as u32, n + 100 + rng.below(50) as u32);
        let stranger = n + 500 + rng.below(50) as u32;
        uf.union(Id::new(x), Id::new(y));
        uf.find(Id::new(stranger));
        let stop = Arc::new(AtomicBool::new(false));
        let mut hs = vec![];
        for t in 0..3 {
            let uf = uf.clone(); let stop = stop.clone();
            hs.push(std::thread::spawn(move || -> (u64, Option<String>) {
                let mut calls = 0u64; let mut last = u32::MAX;
                while !stop.load(SeqCst) {
                    calls += 1;
                    let (a, b) = if t == 0 { (x, y) } else { (y, x) };
                    if !uf.same_set(Id::new(a), Id::new(b)) { return (calls, Some(format!("same_set({a},{b}) = false although they were unioned before the call began"))); }
                    if uf.same_set(Id::new(a), Id::new(stranger)) { return (calls, Some(format!("same_set({a},{stranger}) = true although {stranger} was never unioned"))); }
                    let f = uf.find(Id::new(a)).rep();
                    if f > last { return (calls, Some(format!("find({a}) went from {last} up to {f}: representatives only decrease"))); }
                    last = f;
                }
                (calls, None)
            }));
        }
        // linker: descending merges (the class root moves at every step)
        let step = 1 + rng.below(3) as u32;
        let mut k = n;
        while k > 0 { k = k.saturating_sub(step); uf.union(Id::new(x), Id::new(k)); }
        stop.store(true, SeqCst);
        let mut total = 0;
        for h in hs { match h.join() { Ok((c, None)) => total += c, Ok((c, Some(bad))) => { total += c;
                rep.violate("property", "uf-conc-linearizability", bad, json!({"scenario": "moving-root", "n": n, "capacity": cap, "x": x, "y": y, "stranger": stranger, "round": round})); }
            Err(_) => rep.violate("property", "uf-conc-panic", "checker thread panicked".into(), json!({"scenario": "moving-root"})) } }
        rep.evaluations += 1;
        rep.count("moving_root_queries", total);
        if total > 100 { rep.note_nontrivial(&("moving-root", round, n, cap)); }
        // quiescent state
        for z in [x, y] { if uf.find(Id::new(z)).rep() != 0 { rep.violate("property", "uf-conc-final", format!("after all unions find({z}) != 0"), json!({"scenario": "moving-root"})); } }
    }
}

/// the concurrent structure driven from ONE thread against the executable interference-free instance of the
/// interleaved model (Model/CUF.lean `cMerge` / `cFind` / `cSameSet`; theorem C17c_seq_find says these are
/// `FindRun`s, so C17c_find / C17c_merge / C17c_same_set apply to them)
fn concurrent_single_thread(rep: &mut Report, rng: &mut Rng, n: usize) {
    let mut lines: Vec<String> = vec![]; let mut want: Vec<(usize, String, String)> = vec![];
    for ci in 0..n {
        let ids = [4usize, 12, 60, 300][rng.below(4)];
        let cap = [1usize, 8, 64][rng.below(3)];
        let uf = concurrent::UnionFind::<Id>::with_capacity(cap);
        lines.push("uf new".into()); want.push((ci, "uf new".into(), "ok".into()));
        let len = 5 + rng.below(60);
        let mut ops = vec![];
        for _ in 0..len {
            let (a, b) = (rng.below(ids) as u32, rng.below(ids) as u32);
            let (line, got) = match rng.below(4) {
                0 | 1 => { let (p, c) = uf.union(Id::new(a), Id::new(b)); (format!("uf cmerge {a} {b}"), format!("{} {}", p.rep(), c.rep())) }
                2 => (format!("uf cfind {a}"), format!("{}", uf.find(Id::new(a)).rep())),
                _ => (format!("uf csame {a} {b}"), format!("{}", uf.same_set(Id::new(a), Id::new(b)))),
            };
            ops.push(line.clone()); lines.push(line.clone()); want.push((ci, line, got));
        }
        rep.evaluations += 1; rep.traces_vs_model += 1;
        if ops.iter().filter(|o| o.starts_with("uf cmerge")).count() >= 2 { rep.note_nontrivial(&ops); }
    }
    match run_driver(&lines) {
        Err(e) => rep.violate("correspondence", "driver-failure", e, json!({})),
        Ok(m) => { let mut reported = std::collections::HashSet::new();
            for (i, (ci, line, got)) in want.iter().enumerate() { if &m[i] != got && reported.insert(*ci) {
                let start = want.iter().position(|w| w.0 == *ci).unwrap();
                rep.violate("correspondence", "uf-conc-seq-model-mismatch", format!("single-threaded ConcurrentUnionFind vs the interference-free instance of the interleaved model: `{line}` returns `{got}`, the model `{}`", m[i]), json!({"ops": want[start..=i].iter().map(|w| w.1.clone()).collect::<Vec<_>>()})); } } }
    }
}

pub fn run(ctx: &Ctx) -> Report {
    let mut rep = Report::new("C17", "sequential: every op sequence over ids 0..3 up to the exhaustive length, plus seeded random sequences (ids up to 200, length up to 300), each compared op-by-op with the Lean model and with the partition specification; a case is non-trivial when it contains >= 2 unions of distinct ids (distinct by op list). concurrent: multi-thread histories with growth beyond capacity, non-trivial when two calls overlap in time");
    let mut rng = Rng::new(ctx.seed);
    exhaustive(&mut rep, 3, ctx.n(3, 4));
    random_seqs(&mut rep, &mut rng, ctx.n(300, 5000));
    concurrent_stress(&mut rep, &mut rng, ctx.n(40, 1500));
    moving_root(&mut rep, &mut rng, ctx.n(30, 600));
    concurrent_single_thread(&mut rep, &mut rng, ctx.n(200, 4000));
    rep
}
