//! Child-process entry points (for runs that need their own environment / thread pool).
pub fn main(_args: &[String]) {
    eprintln!("no child mode yet");
    std::process::exit(2);
}

pub fn bench() {
    let t = std::time::Instant::now();
    for _ in 0..50 { let _ = egglog::EGraph::default(); }
    eprintln!("50x EGraph::default(): {:?}", t.elapsed());
    let mut eg = egglog::EGraph::default();
    let t = std::time::Instant::now();
    crate::engine::run(&mut eg, "(datatype K (K0) (K1))\n(function f (K) i64 :merge (min old new))\n(K0)\n(K1)");
    for i in 0..50 { crate::engine::run(&mut eg, &format!("(set (f (K0)) {i})")); }
    eprintln!("50x set: {:?}", t.elapsed());
    let t = std::time::Instant::now();
    for _ in 0..50 { crate::engine::run(&mut eg, "(extract (f (K0)))"); }
    eprintln!("50x extract: {:?}", t.elapsed());
    let t = std::time::Instant::now();
    for _ in 0..50 { let _ = eg.clone(); }
    eprintln!("50x clone: {:?}", t.elapsed());
    let t = std::time::Instant::now();
    for _ in 0..50 { let _ = egglog::EGraph::default().with_num_threads(4); }
    eprintln!("50x EGraph 4 threads: {:?}", t.elapsed());
}

pub fn bench2() {
    for threads in [1usize, 4] {
        let t = std::time::Instant::now();
        let mut rng = crate::rng::Rng::new(5);
        for _ in 0..20 { let c = super::c05::gen_case(&mut rng, super::c05::Kind::Min, threads); let _ = super::c05::run_case(&c); }
        eprintln!("20 cases threads={threads}: {:?}", t.elapsed());
    }
}
