//! Child-process entry points (for runs that need their own environment / thread pool).
pub fn main(_args: &[String]) {
    eprintln!("no child mode yet");
    std::process::exit(2);
}
