//! Child-process entry point: run a program in a fresh process (own environment, own address
//! space, own cut-off configuration) and print every observable as JSON.
use crate::engine;
use serde_json::{json, Value};
use std::io::Read;

pub fn render_outputs(outs: &[egglog::CommandOutput]) -> Vec<String> {
    // C06 compares runs with different thread counts: whether a rule that matched NOTHING is listed in the report (with
    // count 0) depends on which implementation ran it and is not an observable the property names; such entries are
    // dropped there (VERIF_DROP_ZERO_MATCHES).  C20 (same configuration twice) keeps them.
    let drop_zero = std::env::var("VERIF_DROP_ZERO_MATCHES").is_ok();
    outs.iter().map(|o| match o {
        egglog::CommandOutput::RunSchedule(r) => { let mut m: Vec<(String, usize)> = r.num_matches_per_rule.iter().filter(|(_, v)| !drop_zero || **v > 0).map(|(k, v)| (k.to_string(), *v)).collect(); m.sort();
            format!("run-report iterations={} updated={} matches={:?}", r.iterations.len(), r.updated, m) }
        egglog::CommandOutput::OverallStatistics(r) => { let mut m: Vec<(String, usize)> = r.num_matches_per_rule.iter().map(|(k, v)| (k.to_string(), *v)).collect(); m.sort(); format!("stats matches={:?}", m) }
        other => other.to_string(),
    }).collect()
}

pub fn run_job(job: &Value) -> Value {
    let threads = job["threads"].as_u64().unwrap_or(1) as usize;
    let mut eg = engine::fresh(job["mode"].as_str().unwrap_or("plain"), threads);
    if let Some(false) = job["seminaive"].as_bool() { eg.seminaive = false; }
    let mut outcomes = vec![]; let mut outputs = vec![];
    for ch in job["chunks"].as_array().cloned().unwrap_or_default() {
        match engine::run_outputs(&mut eg, ch.as_str().unwrap_or("")) {
            Ok(o) => { outcomes.push("ok".to_string()); outputs.push(render_outputs(&o)); }
            Err(e) => { outcomes.push(e); outputs.push(vec![]); }
        }
    }
    json!({"outcomes": outcomes, "outputs": outputs, "dump": engine::canon(&eg)})
}

pub fn main(_args: &[String]) {
    let mut s = String::new();
    std::io::stdin().read_to_string(&mut s).unwrap();
    let job: Value = serde_json::from_str(&s).unwrap_or(json!({}));
    println!("{}", run_job(&job));
}

/// spawn this binary as a child with the given extra environment
pub fn spawn(job: &Value, env: &[(&str, &str)], pad_args: usize) -> Result<Value, String> {
    use std::io::Write;
    use std::process::{Command, Stdio};
    let exe = std::env::current_exe().map_err(|e| e.to_string())?;
    let mut cmd = Command::new(exe);
    cmd.arg("child");
    for i in 0..pad_args { cmd.arg(format!("--pad{}", "x".repeat(i * 37 % 200))); }
    for (k, v) in env { cmd.env(k, v); }
    let mut ch = cmd.stdin(Stdio::piped()).stdout(Stdio::piped()).stderr(Stdio::null()).spawn().map_err(|e| e.to_string())?;
    ch.stdin.take().unwrap().write_all(job.to_string().as_bytes()).map_err(|e| e.to_string())?;
    // watchdog: a child that does not finish within the limit is a (replayable) hang
    let limit: u64 = std::env::var("VERIF_CHILD_TIMEOUT_S").ok().and_then(|x| x.parse().ok()).unwrap_or(600);
    let t0 = std::time::Instant::now();
    loop {
        match ch.try_wait() { Ok(Some(_)) => break, Ok(None) => {}, Err(e) => return Err(e.to_string()) }
        if t0.elapsed().as_secs() > limit { let _ = ch.kill(); let _ = ch.wait(); return Err(format!("child did not terminate within {limit} s (hang)")); }
        std::thread::sleep(std::time::Duration::from_millis(5));
    }
    let out = ch.wait_with_output().map_err(|e| e.to_string())?;
    if !out.status.success() { return Err(format!("child exited with {:?}", out.status)); }
    serde_json::from_slice(&out.stdout).map_err(|e| format!("bad child output: {e}"))
}

pub fn bench() {}
pub fn bench2() {}
