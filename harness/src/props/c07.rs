//! C07 — extraction.  Random e-graphs (cyclic classes through unions, zero-cost constructors,
//! ties, costs near saturation, :unextractable constructors, subsumed rows, base-value children);
//! for every root: `(extract e)` and `(extract e k)`.
//!  * reported cost = the Lean Bellman-Ford model's cost on the hyperedges read from the dump
//!    (C07_min: that is the minimum tree cost over all terms of the class);
//!  * the returned term, re-evaluated bottom-up through the dump using only non-subsumed rows of
//!    extractable constructors, lands in the root's class and its saturating tree cost equals the
//!    reported cost (membership + cost, evaluated on the implementation's own output);
//!  * extraction fails iff the model has no cost for the class; never panics.
use crate::{engine::{self, RawDump, V}, lean::run_driver, report::Report, rng::Rng, sexp::{self, Sexp}, Ctx};
use egglog::{CommandOutput, EGraph};
use serde_json::json;
use std::collections::HashMap;

#[derive(Clone, Debug, Hash)]
struct Ctor { name: String, arity: usize, base: bool, cost: u64, unextractable: bool }

#[derive(Clone, Debug, Hash)]
struct Case { ctors: Vec<Ctor>, cmds: Vec<String>, nroots: usize }

const COSTS: [u64; 9] = [0, 1, 1, 2, 5, 100, 1 << 62, (1 << 63) - 1, 3];

fn gen_term(rng: &mut Rng, ctors: &[Ctor], depth: usize) -> String {
    let cands: Vec<&Ctor> = ctors.iter().filter(|c| depth > 0 || c.arity == 0 || c.base).collect();
    let c = cands[rng.below(cands.len())];
    if c.base { return format!("({} {})", c.name, rng.range(0, 2)); }
    let args: Vec<String> = (0..c.arity).map(|_| gen_term(rng, ctors, depth - 1)).collect();
    if args.is_empty() { format!("({})", c.name) } else { format!("({} {})", c.name, args.join(" ")) }
}

fn gen_case(rng: &mut Rng) -> Case {
    let big = rng.chance(1, 3);
    let cost = |rng: &mut Rng| if big { COSTS[rng.below(COSTS.len())] } else { COSTS[rng.below(6)] };
    let mut ctors = vec![
        Ctor { name: "A".into(), arity: 0, base: false, cost: cost(rng), unextractable: false },
        Ctor { name: "B".into(), arity: 0, base: false, cost: cost(rng), unextractable: rng.chance(1, 6) },
        Ctor { name: "L".into(), arity: 1, base: true, cost: cost(rng), unextractable: false },
        Ctor { name: "U".into(), arity: 1, base: false, cost: cost(rng), unextractable: false },
        Ctor { name: "W".into(), arity: 1, base: false, cost: cost(rng), unextractable: rng.chance(1, 5) },
        Ctor { name: "Bin".into(), arity: 2, base: false, cost: cost(rng), unextractable: false },
    ];
    if rng.chance(1, 2) { ctors.push(Ctor { name: "T".into(), arity: 3, base: false, cost: cost(rng), unextractable: false }); }
    let mut cmds = vec![];
    let nroots = 2 + rng.below(4);
    let mut roots = vec![];
    for i in 0..nroots { let dep = 1 + rng.below(3); let t = gen_term(rng, &ctors, dep); cmds.push(format!("(let $r{i} {t})")); roots.push(t); }
    for _ in 0..rng.below(5) {
        match rng.below(6) {
            0 | 1 | 2 => { let a = rng.below(nroots); let b = rng.below(nroots); cmds.push(format!("(union $r{a} $r{b})")); }
            3 => { let a = rng.below(nroots); cmds.push(format!("(union $r{a} (U $r{a}))")); } // cyclic class
            4 => { let t = rng.pick(&roots).clone(); if t.starts_with("(U") || t.starts_with("(Bin") || t.starts_with("(W") || t.starts_with("(T") { cmds.push(format!("(subsume {t})")); } }
            _ => { let a = rng.below(nroots); cmds.push(format!("(union $r{a} (Bin $r{a} (A)))")); }
        }
    }
    Case { ctors, cmds, nroots }
}

/// Directed family: saturating costs make the rank guard reject the only live best edge of a class (its child is
/// lowered in a later pass while its own saturated cost does not move), so the grounded-repair pass has to choose an
/// edge for it — and the same class holds a SUBSUMED row whose saturated cost ties.  The repair must not pick it.
fn gen_saturating_subsumed(rng: &mut Rng) -> Case {
    let big = [(1u64 << 63) - 1, (1 << 63) - 1, (1 << 63) - 2, 1 << 62][rng.below(4)];
    let k = |rng: &mut Rng| if rng.chance(3, 4) { big } else { (1u64 << 63) - 1 };
    let mut ctors = vec![
        Ctor { name: "T".into(), arity: 1, base: false, cost: k(rng), unextractable: false },
        Ctor { name: "Q".into(), arity: 1, base: false, cost: k(rng), unextractable: false },
        Ctor { name: "R".into(), arity: 1, base: false, cost: [1, 1, 2, 5][rng.below(4)], unextractable: false },
        Ctor { name: "C0".into(), arity: 0, base: false, cost: k(rng), unextractable: false },
        Ctor { name: "D0".into(), arity: 0, base: false, cost: k(rng), unextractable: false },
        Ctor { name: "E0".into(), arity: 1, base: true, cost: k(rng), unextractable: false },
    ];
    // declaration order decides the scan order of the tables
    for i in (1..ctors.len()).rev() { if rng.chance(1, 2) { ctors.swap(i, rng.below(i + 1)); } }
    let depth = rng.below(3);
    let mut x = "(Q $b)".to_string(); for _ in 0..depth { x = format!("(Q {x})"); }
    let mut cmds = vec!["(let $b (Q (C0)))".to_string(), format!("(let $r0 {x})"), "(union $b (R (D0)))".to_string()];
    let dead = if rng.chance(1, 2) { "(T (E0 0))" } else { "(T (D0))" };
    cmds.push(format!("(let $t {dead})")); cmds.push("(union $r0 $t)".into()); cmds.push(format!("(subsume {dead})"));
    if rng.chance(1, 3) { cmds.push("(let $u (T (C0)))".into()); cmds.push("(union $b $u)".into()); cmds.push("(subsume (T (C0)))".into()); }
    Case { ctors, cmds, nroots: 1 }
}

fn header(c: &Case) -> String {
    let mut s = String::from("(sort E)\n");
    for k in &c.ctors {
        let args = if k.base { "i64".to_string() } else { vec!["E"; k.arity].join(" ") };
        s.push_str(&format!("(constructor {} ({}) E :cost {}{})\n", k.name, args, k.cost, if k.unextractable { " :unextractable" } else { "" }));
    }
    s
}

fn sat(a: u64, b: u64) -> u64 { a.saturating_add(b) }

/// evaluate a term bottom-up through the dump; `restricted` = only non-subsumed rows of extractable ctors
fn eval(t: &Sexp, d: &RawDump, ctors: &[Ctor], restricted: bool) -> Result<(u32, u64), String> {
    let Sexp::List(v) = t else { return Err(format!("not a term: {t}")); };
    let Some(Sexp::Atom(head)) = v.first() else { return Err("no head".into()); };
    let ctor = ctors.iter().find(|c| &c.name == head).ok_or(format!("unknown constructor {head}"))?;
    if restricted && ctor.unextractable { return Err(format!("term uses unextractable constructor {head}")); }
    let tbl = d.tables.iter().find(|tb| &tb.name == head).ok_or(format!("no table {head}"))?;
    let mut args = vec![]; let mut cost = ctor.cost;
    for a in &v[1..] {
        match a {
            Sexp::Atom(x) => { let n: i64 = x.parse().map_err(|_| format!("bad literal {x}"))?; args.push(V::Int(n)); cost = sat(cost, 1); }
            Sexp::List(_) => { let (c, k) = eval(a, d, ctors, restricted)?; args.push(V::Id(d.canon_of.get(&c).copied().unwrap_or(c))); cost = sat(cost, k); }
            Sexp::Str(_) => return Err("string".into()),
        }
    }
    for r in &tbl.rows {
        if r.args == args {
            if restricted && r.sub { return Err(format!("term uses subsumed row {head} {args:?}")); }
            if let V::Id(c) = r.out { return Ok((c, cost)); }
        }
    }
    Err(format!("row {head} {args:?} not in the e-graph"))
}

fn run_case(rep: &mut Report, c: &Case, model_costs: Option<&HashMap<u32, Option<u64>>>, d: &RawDump, eg: &EGraph, roots: &[Option<u32>]) {
    let prog = header(c) + &c.cmds.join("\n");
    for i in 0..c.nroots {
        let Some(cls) = roots[i] else { continue };
        let mut e2 = eg.clone();
        let out = engine::run_outputs(&mut e2, &format!("(extract $r{i})"));
        rep.count("extractions", 1);
        let want = model_costs.and_then(|m| m.get(&cls).cloned());
        match out {
            Err(e) if e == "panic" => {
                let tie = c.ctors.iter().any(|k| k.cost >= 1 << 62);
                rep.violate("property", if tie { "c07-extract-panic-saturating" } else { "c07-extract-panic" }, format!("(extract $r{i}) panicked"), json!({"program": format!("{prog}\n(extract $r{i})")}));
            }
            Err(e) => {
                rep.count("failed_extractions", 1);
                if let Some(Some(k)) = want { rep.violate("property", "c07-spurious-failure", format!("(extract $r{i}) failed ({e}) although the class has a term of cost {k}"), json!({"program": format!("{prog}\n(extract $r{i})")})); }
            }
            Ok(outs) => {
                let Some(CommandOutput::ExtractBest(dag, cost, tid)) = outs.into_iter().next() else { continue };
                let text = dag.to_string(tid);
                let term = match sexp::parse_one(&text) { Ok(t) => t, Err(e) => { rep.violate("property", "c07-unparsable-term", format!("extracted term `{text}` does not parse: {e}"), json!({"program": prog})); continue; } };
                match eval(&term, d, &c.ctors, true) {
                    Err(e) => rep.violate("property", "c07-not-member", format!("(extract $r{i}) returned `{text}`: {e}"), json!({"program": format!("{prog}\n(extract $r{i})")})),
                    Ok((tc, tcost)) => {
                        let canon = |x: u32| d.canon_of.get(&x).copied().unwrap_or(x);
                        if canon(tc) != canon(cls) { rep.violate("property", "c07-not-member", format!("(extract $r{i}) returned `{text}` which evaluates to a different e-class"), json!({"program": format!("{prog}\n(extract $r{i})")})); }
                        if tcost != cost { rep.violate("property", "c07-cost-mismatch", format!("(extract $r{i}) reports cost {cost} but the tree cost of `{text}` is {tcost}"), json!({"program": format!("{prog}\n(extract $r{i})")})); }
                    }
                }
                match want {
                    Some(Some(k)) if k != cost => rep.violate("property", "c07-not-minimal", format!("(extract $r{i}) reports cost {cost}; the minimum tree cost over the class is {k}"), json!({"program": format!("{prog}\n(extract $r{i})")})),
                    Some(None) => rep.violate("property", "c07-impossible-success", format!("(extract $r{i}) succeeded with `{text}` but the class has no term from non-subsumed extractable rows"), json!({"program": format!("{prog}\n(extract $r{i})")})),
                    _ => {}
                }
            }
        }
        // variants
        let mut e3 = eg.clone();
        if let Ok(outs) = engine::run_outputs(&mut e3, &format!("(extract $r{i} 4)")) {
            if let Some(CommandOutput::ExtractVariants(dag, tids)) = outs.into_iter().next() {
                rep.count("variant_extractions", 1);
                let mut heads = std::collections::HashSet::new();
                for t in tids {
                    let text = dag.to_string(t);
                    if let Ok(term) = sexp::parse_one(&text) {
                        match eval(&term, d, &c.ctors, false) {
                            Ok((tc, _)) => { let canon = |x: u32| d.canon_of.get(&x).copied().unwrap_or(x); if canon(tc) != canon(cls) { rep.violate("property", "c07-variant-not-member", format!("variant `{text}` of $r{i} is not in its class"), json!({"program": format!("{prog}\n(extract $r{i} 4)")})); } }
                            Err(e) => rep.violate("property", "c07-variant-not-member", format!("variant `{text}` of $r{i}: {e}"), json!({"program": format!("{prog}\n(extract $r{i} 4)")})),
                        }
                        // root e-node = head + canonical child classes
                        if let Sexp::List(v) = &term { let key = format!("{}:{:?}", v[0], v[1..].iter().map(|a| match a { Sexp::List(_) => eval(a, d, &c.ctors, false).map(|x| format!("#{}", d.canon_of.get(&x.0).copied().unwrap_or(x.0))).unwrap_or_default(), o => o.to_string() }).collect::<Vec<_>>()); if !heads.insert(key) { rep.violate("property", "c07-variant-duplicate", format!("two variants of $r{i} are rooted at the same e-node (`{text}`)"), json!({"program": format!("{prog}\n(extract $r{i} 4)")})); } }
                    }
                }
            }
        }
    }
}

pub fn run(ctx: &Ctx) -> Report {
    let mut rep = Report::new("C07", "random e-graphs over a datatype with nullary/unary/binary/ternary constructors, a base-value child, random :cost (incl. 0, ties, 2^62, i64::MAX), :unextractable constructors, unions making classes cyclic, subsumed rows; every root extracted (best + 4 variants); non-trivial = the root's class has >= 2 e-nodes or a cycle or a saturating cost or a failing extraction (distinct by program)");
    let mut rng = Rng::new(ctx.seed ^ 0xC07);
    let n = ctx.n(250, 5000);
    // corpus: defect 4 (panic when saturating costs tie)
    let mut cases = vec![Case { ctors: vec![
            Ctor { name: "Leaf".into(), arity: 0, base: false, cost: 1, unextractable: false }, Ctor { name: "Mid".into(), arity: 1, base: false, cost: 100, unextractable: false },
            Ctor { name: "Big".into(), arity: 1, base: false, cost: 9223372036854775807, unextractable: false }, Ctor { name: "Cheap".into(), arity: 1, base: false, cost: 1, unextractable: false }],
        cmds: vec!["(let $c (Mid (Leaf)))".into(), "(let $r0 (Big (Big (Big $c))))".into(), "(union $c (Cheap (Leaf)))".into()], nroots: 1 }];
    // corpus: the repair pass of the saturating-cost fix must skip subsumed rows
    cases.push(Case { ctors: vec![
            Ctor { name: "T".into(), arity: 1, base: false, cost: 9223372036854775807, unextractable: false }, Ctor { name: "Q".into(), arity: 1, base: false, cost: 9223372036854775807, unextractable: false },
            Ctor { name: "R".into(), arity: 1, base: false, cost: 1, unextractable: false }, Ctor { name: "C0".into(), arity: 0, base: false, cost: 9223372036854775807, unextractable: false },
            Ctor { name: "D0".into(), arity: 0, base: false, cost: 9223372036854775807, unextractable: false }, Ctor { name: "E0".into(), arity: 1, base: true, cost: 9223372036854775807, unextractable: false }],
        cmds: vec!["(let $b (Q (C0)))".into(), "(let $r0 (Q $b))".into(), "(union $b (R (D0)))".into(), "(let $t (T (E0 0)))".into(), "(union $r0 $t)".into(), "(subsume (T (E0 0)))".into()], nroots: 1 });
    for _ in 0..ctx.n(40, 400) { cases.push(gen_saturating_subsumed(&mut rng)); }
    for _ in 0..n { cases.push(gen_case(&mut rng)); }
    // run the engine, read dumps, build model inputs
    let mut lines = vec![]; let mut metas = vec![];
    for c in &cases {
        let mut eg = EGraph::default();
        let prog = header(c) + &c.cmds.join("\n");
        // pre-flight in a child process: a cyclic choice of parent edges makes reconstruction recurse forever
        // (stack overflow aborts the process, which cannot be caught in-process)
        {
            let mut chunks = vec![prog.clone()];
            for i in 0..c.nroots { chunks.push(format!("(extract $r{i})")); chunks.push(format!("(extract $r{i} 4)")); }
            unsafe { std::env::set_var("VERIF_CHILD_TIMEOUT_S", "60"); }
            let r = crate::props::child::spawn(&json!({"threads": 1, "chunks": chunks}), &[], 0);
            if let Err(e) = r {
                rep.violate("property", "c07-extract-aborts", format!("extraction kills the process (stack overflow from a cyclic choice of e-nodes, or a hang): {e}"), json!({"program": chunks.join("\n")}));
                metas.push(None); continue;
            }
        }
        let o = engine::run(&mut eg, &prog);
        if !o.is_ok() { metas.push(None); continue; }
        let d = engine::raw_dump(&eg);
        let canon = |x: u32| d.canon_of.get(&x).copied().unwrap_or(x);
        let mut classes = std::collections::BTreeSet::new();
        lines.push("ex new".to_string());
        for k in &c.ctors {
            if k.unextractable { continue; }
            if let Some(t) = d.tables.iter().find(|t| t.name == k.name) {
                for r in &t.rows {
                    let V::Id(out) = r.out else { continue };
                    classes.insert(canon(out));
                    let mut head = k.cost; let mut ch = vec![];
                    for a in &r.args { match a { V::Id(i) => { ch.push(canon(*i)); classes.insert(canon(*i)); } _ => head = sat(head, 1) } }
                    lines.push(format!("ex edge {} {} {} {}", head, canon(out), r.sub as u8, ch.iter().map(|x| x.to_string()).collect::<Vec<_>>().join(" ")));
                }
            }
        }
        // roots: class of each $r table
        let roots: Vec<Option<u32>> = (0..c.nroots).map(|i| d.tables.iter().find(|t| t.name == format!("$r{i}")).and_then(|t| t.rows.first()).and_then(|r| if let V::Id(x) = r.out { Some(canon(x)) } else { None })).collect();
        for r in roots.iter().flatten() { classes.insert(*r); }
        lines.push(format!("ex run {}", classes.iter().map(|x| x.to_string()).collect::<Vec<_>>().join(" ")));
        lines.push(format!("ex term {}", classes.iter().map(|x| x.to_string()).collect::<Vec<_>>().join(" ")));
        metas.push(Some((eg, d, roots, lines.len() - 2)));
    }
    let model = run_driver(&lines);
    if let Err(e) = &model { rep.violate("correspondence", "driver-failure", e.clone(), json!({})); }
    for (ci, c) in cases.iter().enumerate() {
        rep.evaluations += 1;
        let Some((eg, d, roots, at)) = &metas[ci] else { rep.count("programs_rejected", 1); continue };
        if ci < 3 { rep.sample(json!(header(c) + &c.cmds.join("\n"))); }
        let mc: Option<HashMap<u32, Option<u64>>> = model.as_ref().ok().and_then(|m| {
            if m[*at] == "fuel-exhausted" { return None; }
            Some(m[*at].split_whitespace().filter_map(|kv| { let (k, v) = kv.split_once('=')?; Some((k.parse().ok()?, v.parse().ok())) }).collect())
        });
        if mc.is_some() { rep.traces_vs_model += 1; } else { rep.count("model_fuel_exhausted", 1); }
        let multi = d.tables.iter().filter(|t| !t.name.starts_with('$')).flat_map(|t| t.rows.iter()).fold(HashMap::<u32, usize>::new(), |mut m, r| { if let V::Id(o) = r.out { *m.entry(o).or_default() += 1; } m }).values().any(|&n| n >= 2);
        if multi || c.ctors.iter().any(|k| k.cost >= 1 << 62) { rep.note_nontrivial(c); }
        run_case(&mut rep, c, mc.as_ref(), d, eg, roots);
        // the reconstruction half of the model (theorem C07_extract_term): a root the model can reconstruct must be
        // extracted by the engine at the same cost, and a root the engine extracts must be reconstructible in the model
        if let Ok(m) = &model { let line = &m[*at + 1]; if line != "fuel-exhausted" {
            if line.starts_with("repair=1") { rep.count("model_grounded_repairs", 1); }
            let tm: HashMap<u32, Option<u64>> = line.split_whitespace().filter_map(|kv| { let (k, v) = kv.split_once('=')?; Some((k.parse().ok()?, v.parse().ok())) }).collect();
            if line.contains("=stuck") { rep.violate("theorem", "c07-model-reconstruct-stuck", format!("the Lean reconstruction got stuck on a grounded class, contradicting C07_extract_term: {line}"), json!({"program": header(c) + &c.cmds.join("\n")})); }
            for i in 0..c.nroots { let Some(cls) = roots[i] else { continue };
                let mut e2 = eg.clone();
                let got = match engine::run_outputs(&mut e2, &format!("(extract $r{i})")) { Ok(outs) => match outs.into_iter().next() { Some(CommandOutput::ExtractBest(_, cost, _)) => Some(cost), _ => None }, Err(_) => None };
                let want = tm.get(&cls).cloned().flatten();
                rep.count("reconstructions_vs_model", 1);
                if got != want { rep.violate("correspondence", "c07-term-model-mismatch", format!("(extract $r{i}): the engine returns a term of cost {got:?}, the Lean pipeline (rank-guarded edges + grounded repair + reconstruction) {want:?}"), json!({"program": format!("{}\n(extract $r{i})", header(c) + &c.cmds.join("\n"))})); break; }
            }
        } }
    }
    rep
}
