//! C09 — bad input is rejected cleanly: no panic, no partial effect.
//! Three streams, all under `catch_unwind`, on long-lived e-graphs:
//!  (1) raw byte strings and damaged programs fed to `parse_and_run_program`: never a panic;
//!  (2) every class of ill-formed / ill-typed command inserted at every position of valid sessions:
//!      outputs and canonical dump of `S1; bad; S2` must equal those of `S1; S2`, and `bad` must return
//!      an error value — in plain, term-encoding and proof modes;
//!  (3) run-time failures (rule panic, :no-merge conflict, failing primitive, failed lookup) leave a
//!      usable, canonical e-graph.
use crate::{engine, pgen::{self, GenOpts}, report::Report, rng::Rng, session, Ctx};
use egglog::EGraph;
use serde_json::json;

fn mk(mode: &str) -> EGraph { match mode { "term" => EGraph::new_with_term_encoding(), "proofs" => EGraph::new_with_proofs(), _ => EGraph::default() } }

/// ill-typed / ill-scoped mutations; each must be rejected before execution
fn bad_commands(k: usize) -> Vec<(String, &'static str)> {
    vec![
        ("(F (A))".into(), "wrong arity"), ("(G 1)".into(), "wrong sort"), ("(union (A) 1)".into(), "union on non-eq sort"),
        ("(set (G (A)) (B))".into(), "set on constructor"), ("(rule ((= e (G x))) ((union e y)))".into(), "unbound variable in head"),
        ("(rule ((= e (G x)) (= e2 (G e))) ((union e (G q))))".into(), "ungrounded variable"), ("(rewrite (G x) (F x y))".into(), "unbound rhs variable"),
        (format!("(function bad{k} (E) i64 :merge (bogus old new))"), "bad merge expression"), (format!("(function badb{k} (E) i64 :merge (+ old \"s\"))"), "ill-typed merge"),
        ("(constructor A () E)".into(), "duplicate declaration"), ("(sort E)".into(), "duplicate sort"), (format!("(sort Bad{k} (Vec NoSuchSort))"), "unknown presort argument"),
        (format!("(sort Bad2{k} (NoSuchPresort E))"), "unknown presort"), ("(run nosuchruleset 1)".into(), "unknown ruleset"), ("(rule ((= e (G x))) ((union e x)) :ruleset nosuch)".into(), "rule in unknown ruleset"),
        ("(check (= (A) 1))".into(), "ill-typed check"), ("(extract (NoSuch))".into(), "unknown function"), ("(let lo (A))".into(), "global shadows a function"),
        ("(rule ((= x (G x2)) (= x 1)) ((A)))".into(), "variable with two sorts"), (format!("(ruleset rr{k})\n(function rr{k} (E) i64 :no-merge)"), "name shadows a ruleset"),
        ("(rule ((= e (G x))) ((let x (A))))".into(), "shadowing variable in action"), ("(rule ((= e (G x))) ((set (lo (G (G x))) (lo e))))".into(), "lookup in seminaive action"),
        ("(set (lo (A)) \"str\")".into(), "wrong value sort"), ("(delete (lo (A) (B)))".into(), "wrong arity in delete"), ("(subsume (A) (B))".into(), "malformed subsume"),
        ("(print-function nosuch 3)".into(), "unknown table"), ("(pop)".into(), "pop without push"), ("(fail (check (= (A) (A))))".into(), "fail of a success"),
        ("(this is (not a command".into(), "unbalanced"), ("(panic \"unterminated".into(), "unterminated string"), ("(A) )".into(), "stray paren"), ("\"\\q\"".into(), "bad escape"),
        ("(datatype X (MkX X Y))".into(), "unknown sort in datatype"), ("(birewrite (G x) (G y))".into(), "birewrite unbound"), ("(run-schedule (repeat -1 (run)))".into(), "negative repeat"),
        ("(constructor Big (E) E :cost 99999999999999999999)".into(), "cost overflow"), ("(run-schedule (saturate (run nosuch)))".into(), "unknown ruleset in schedule"),
    ]
}

fn observe(eg: &mut EGraph, cmds: &[String]) -> Vec<String> {
    cmds.iter().map(|c| match engine::run_outputs(eg, c) { Ok(o) => format!("ok {}", egglog::CommandOutput::snapshot_stable_under_proof_encoding(&o)), Err(e) => e }).collect()
}

pub fn run(ctx: &Ctx) -> Report {
    let mut rep = Report::new("C09", "(1) raw bytes / damaged programs; (2) 37 kinds of ill-formed or ill-typed command (wrong sort/arity, unbound/ungrounded/shadowing variable, set on constructor, union on non-eq sort, lookup in seminaive action, duplicate declaration, bad merge expression, unknown presort / ruleset / table, unbalanced text, bad escape ..) inserted at every position of generated valid sessions, in plain, term-encoding and proof modes: S1;bad;S2 compared with S1;S2; (3) run-time failures mid-session. non-trivial = a rejected command that would have changed state had it been accepted (a declaration / action), or a run-time failure (distinct by (session, position, kind))");
    let mut rng = Rng::new(ctx.seed ^ 0xC09);
    // (1) raw bytes
    let alphabet: Vec<char> = "()\"\\; \n\tabAB01-+:.@$_!?<=>*/éλ\u{0}\u{7f}".chars().collect();
    let seeds = ["(datatype E (A) (B) (G E))", "(rule ((= e (G x))) ((union e x)) :name \"n\")", "(run-schedule (saturate (run)))", "(function f (E) i64 :merge (min old new))", "(check (= (G (A)) (B)))", "(extract (G (A)) 3)"];
    let mut eg = EGraph::default();
    for i in 0..ctx.n(2500, 60000) {
        let text: String = if i % 2 == 0 { (0..rng.below(40)).map(|_| alphabet[rng.below(alphabet.len())]).collect() }
            else { let mut cs: Vec<char> = seeds[rng.below(seeds.len())].chars().collect(); for _ in 0..(1 + rng.below(3)) { if cs.is_empty() { break; } let p = rng.below(cs.len()); match rng.below(4) { 0 => { cs.remove(p); } 1 => cs.insert(p, alphabet[rng.below(alphabet.len())]), 2 => { let q = rng.below(cs.len()); cs.swap(p, q); } _ => { cs[p] = alphabet[rng.below(alphabet.len())]; } } } cs.into_iter().collect() };
        rep.evaluations += 1;
        if let engine::Outcome::Panic(m) = engine::run(&mut eg, &text) { rep.violate("property", "c09-panic-on-text", format!("input text made the engine panic: {m}"), json!({"text": text})); eg = EGraph::default(); }
        if i % 500 == 499 { eg = EGraph::default(); }
    }
    // (2) ill-typed command at every position
    let nsess = ctx.n(12, 200);
    for si in 0..nsess {
        let sig = pgen::gen_sig(&mut rng);
        let cmds: Vec<String> = pgen::gen_program(&mut rng, &sig, &GenOpts { faults: false, subsume: true, delete: false, pushpop: false, ncmds: 8 }).iter().map(|c| pgen::cmd_text(&sig, c)).collect();
        let mut hdr = sig.header(); if !hdr.contains("function lo") { hdr.push_str("(function lo (E) i64 :merge (min old new))\n"); }
        for mode in ["plain", "term", "proofs"] {
            if mode != "plain" && si % 3 != 0 { continue; }
            let mut clean = mk(mode);
            if !engine::run(&mut clean, &hdr).is_ok() { continue; }
            let want = observe(&mut clean, &cmds);
            let want_dump = engine::canon(&clean);
            let bads = bad_commands(si);
            for pos in 0..=cmds.len() {
                let (bad, kind) = &bads[(pos * 7 + si * 3 + rng.below(bads.len())) % bads.len()];
                let mut eg = mk(mode);
                engine::run(&mut eg, &hdr);
                let mut got = observe(&mut eg, &cmds[..pos]);
                let o = engine::run(&mut eg, bad);
                rep.evaluations += 1;
                rep.note_nontrivial(&(si, pos, kind, mode));
                let prog = || json!({"mode": mode, "program": hdr.clone() + &cmds[..pos].join("\n") + "\n" + bad + "\n" + &cmds[pos..].join("\n"), "bad": bad, "kind": kind});
                match &o {
                    engine::Outcome::Panic(m) => { rep.violate("property", "c09-panic-on-ill-typed", format!("[{mode}] {kind}: `{bad}` made the engine panic: {m}"), prog()); continue; }
                    engine::Outcome::Ok(_) => { rep.count("bad_commands_accepted", 1); continue; } // accepted in this context (e.g. a name that happens to exist): not a rejection case
                    engine::Outcome::Err(_) => {}
                }
                // a name whose declaration was rejected must still be free (on a clone, so the session is undisturbed)
                if let Some(rest) = bad.strip_prefix("(function ") { let name = rest.split(' ').next().unwrap_or("");
                    if kind.contains("merge") { let mut c2 = eg.clone(); let r = engine::run(&mut c2, &format!("(function {name} (E) i64 :merge (min old new))\n(set ({name} (A)) 1)"));
                        if !r.is_ok() { rep.violate("property", if matches!(r, engine::Outcome::Panic(_)) { "c09-panic-after-rejected" } else { "c09-rejected-command-has-effect" }, format!("[{mode}] `{bad}` was rejected, yet a correct declaration and use of `{name}` afterwards gives {r:?}"), prog()); continue; } } }
                if let Some(rest) = bad.strip_prefix("(sort ") { let name = rest.split(|c| c == ' ' || c == ')').next().unwrap_or("");
                    if name != "E" { let mut c2 = eg.clone(); let r = engine::run(&mut c2, &format!("(sort {name})"));
                        if !r.is_ok() { rep.violate("property", "c09-rejected-command-has-effect", format!("[{mode}] `{bad}` was rejected, yet `(sort {name})` afterwards gives {r:?}"), prog()); continue; } } }
                got.extend(observe(&mut eg, &cmds[pos..]));
                if got != want {
                    let k = got.iter().zip(&want).position(|(a, b)| a != b).unwrap_or(0);
                    let panicked = got[k] == "panic";
                    rep.violate("property", if panicked { "c09-panic-after-rejected" } else { "c09-rejected-command-has-effect" }, format!("[{mode}] after the rejected `{bad}` ({kind}) at position {pos}, command `{}` answers `{}` instead of `{}`", cmds[k], got[k].chars().take(200).collect::<String>(), want[k].chars().take(200).collect::<String>()), prog());
                    continue;
                }
                if mode == "plain" && engine::canon(&eg) != want_dump { rep.violate("property", "c09-rejected-command-has-effect", format!("[{mode}] after the rejected `{bad}` ({kind}) the final database differs"), prog()); }
            }
        }
    }
    // (3) run-time failures leave a usable, canonical e-graph (covered in depth by C04; here: usability in all modes)
    for mode in ["plain", "term", "proofs"] {
        let mut eg = mk(mode);
        let p = "(datatype E (A) (B) (G E))\n(function h (E) i64 :no-merge)\n(function lo (E) i64 :merge (min old new))\n(G (A))\n(G (B))\n(set (h (A)) 1)\n";
        engine::run(&mut eg, p);
        for (bad, kind) in [("(set (h (A)) 2)", ":no-merge conflict"), ("(rule ((= e (G x))) ((panic \"boom\")))\n(run 1)", "rule panic"), ("(extract (lo (B)))", "failed lookup"), ("(set (lo (A)) (/ 1 0))", "failing primitive"), ("(check (= (A) (B)))", "failed check")] {
            let o = engine::run(&mut eg, bad);
            rep.evaluations += 1; rep.note_nontrivial(&(mode, kind));
            if let engine::Outcome::Panic(m) = &o { rep.violate("property", "c09-panic-at-runtime-failure", format!("[{mode}] {kind}: `{bad}` panicked: {m}"), json!({"mode": mode, "program": p.to_string() + bad})); }
            if o.is_ok() && kind != "failed check" { rep.count("runtime_failures_that_succeeded", 1); }
            let after = engine::run(&mut eg, "(union (A) (B))\n(check (= (G (A)) (G (B))))\n(union (A) (A))");
            if !after.is_ok() && kind != "failed check" { /* union A B once is enough; later iterations re-union harmlessly */ }
            if let engine::Outcome::Panic(m) = after { rep.violate("property", "c09-unusable-after-failure", format!("[{mode}] after {kind} the e-graph panics on ordinary commands: {m}"), json!({"mode": mode})); }
            if mode == "plain" { if let Some(d) = engine::dump_defects(&engine::raw_dump(&eg)) { rep.violate("property", "c09-inconsistent-after-failure", format!("after {kind}: {d}"), json!({"mode": mode})); } }
        }
    }
    let _ = session::fresh_engine;
    rep
}
