//! Minimal s-expression reader for engine output (extracted terms, printed programs).
#[derive(Clone, Debug, PartialEq, Eq, Hash)]
pub enum Sexp { Atom(String), Str(String), List(Vec<Sexp>) }

pub fn parse_all(s: &str) -> Result<Vec<Sexp>, String> {
    let cs: Vec<char> = s.chars().collect();
    let mut i = 0;
    let mut out = vec![];
    loop {
        skip_ws(&cs, &mut i);
        if i >= cs.len() { return Ok(out); }
        out.push(parse(&cs, &mut i)?);
    }
}

pub fn parse_one(s: &str) -> Result<Sexp, String> {
    let v = parse_all(s)?;
    if v.len() == 1 { Ok(v.into_iter().next().unwrap()) } else { Err(format!("expected one s-expression, got {}", v.len())) }
}

fn skip_ws(cs: &[char], i: &mut usize) {
    while *i < cs.len() {
        if cs[*i].is_whitespace() { *i += 1; }
        else if cs[*i] == ';' { while *i < cs.len() && cs[*i] != '\n' { *i += 1; } }
        else { break; }
    }
}

fn parse(cs: &[char], i: &mut usize) -> Result<Sexp, String> {
    skip_ws(cs, i);
    if *i >= cs.len() { return Err("eof".into()); }
    match cs[*i] {
        '(' => {
            *i += 1;
            let mut v = vec![];
            loop {
                skip_ws(cs, i);
                if *i >= cs.len() { return Err("unclosed (".into()); }
                if cs[*i] == ')' { *i += 1; return Ok(Sexp::List(v)); }
                v.push(parse(cs, i)?);
            }
        }
        ')' => Err("unexpected )".into()),
        '"' => {
            *i += 1;
            let mut s = String::new();
            while *i < cs.len() {
                let c = cs[*i];
                if c == '"' { *i += 1; return Ok(Sexp::Str(s)); }
                if c == '\\' && *i + 1 < cs.len() {
                    *i += 1;
                    s.push(match cs[*i] { 'n' => '\n', 't' => '\t', 'r' => '\r', o => o });
                } else { s.push(c); }
                *i += 1;
            }
            Err("unclosed string".into())
        }
        _ => {
            let st = *i;
            while *i < cs.len() && !cs[*i].is_whitespace() && cs[*i] != '(' && cs[*i] != ')' && cs[*i] != '"' { *i += 1; }
            Ok(Sexp::Atom(cs[st..*i].iter().collect()))
        }
    }
}

impl std::fmt::Display for Sexp {
    fn fmt(&self, f: &mut std::fmt::Formatter<'_>) -> std::fmt::Result {
        match self {
            Sexp::Atom(a) => write!(f, "{a}"),
            Sexp::Str(s) => write!(f, "{s:?}"),
            Sexp::List(v) => { write!(f, "(")?; for (i, x) in v.iter().enumerate() { if i > 0 { write!(f, " ")?; } write!(f, "{x}")?; } write!(f, ")") }
        }
    }
}
